package main

import (
	"fmt"
	"go/ast"
	"go/token"
	"go/types"
	"sort"
	"strings"
)

func init() {
	register(&Rule{ID: "USER-1", Doc: "bytes produced by user code are re-validated: the results of Marshaler.MarshalJSON, MarshalFunc callbacks and TextMarshaler.MarshalText are used only as the argument of Encoder.WriteValue or appended inside an AppendRaw(..., safeASCII=false, ...) callback; TextAppender.AppendText is only handed to AppendRaw with safeASCII=false", Run: ruleUSER1})
	register(&Rule{ID: "USER-2", Doc: "one-value bracket around calls that hand the coder to user code (MarshalJSONTo, MarshalToFunc callback, UnmarshalJSONFrom, UnmarshalFromFunc callback): Tokens.DepthLength() is captured before and after, Flags.Set(WithinArshalCall|1) immediately precedes and Flags.Set(WithinArshalCall|0) immediately follows the call, a success is turned into an error unless depth is unchanged and length grew by exactly one, and the ErrUnsupported fall-through is only taken when depth and length are both unchanged", Run: ruleUSER2})
	register(&Rule{ID: "PREC-1", Doc: "documented precedence is wired in: makeMethodArshaler returns early for pointer and interface kinds and installs TextMarshaler, TextAppender, Marshaler, MarshalerTo (and TextUnmarshaler, Unmarshaler, UnmarshalerFrom) in that order so that the last wins; lookupArshaler composes default, methods, time; typedArshalers.lookup scans the caller's functions in list order and stops at the first that cannot skip, falling back to the default after ErrUnsupported; every dispatch through an arshaler's marshal/unmarshal consults the option-supplied functions first", Run: rulePREC1})
	register(&Rule{ID: "ERR-1", Doc: "error discipline: in packages json, jsontext and v1 the error result of a coder method, an arshaler dispatch, or jsonwire.AppendQuote/AppendUnquote/ReformatString/ConsumeString* is never discarded, except at the frozen sites where the input was validated earlier on the same path", Run: ruleERR1})
}

func hasParamNamed(sig *types.Signature, pkgShort, name string) bool {
	for i := 0; i < sig.Params().Len(); i++ {
		if isNamed(sig.Params().At(i).Type(), pkgAlias[pkgShort], name) {
			return true
		}
	}
	return false
}

// userCoderCalls lists dynamic calls in f that pass a *jsontext.Encoder/*Decoder to code outside the library.
func userCoderCalls(p *Program, f *FuncInfo) []*ast.CallExpr {
	info := f.Info()
	var out []*ast.CallExpr
	InspectNoLit(f.Body(), func(n ast.Node) bool {
		call, ok := n.(*ast.CallExpr)
		if !ok {
			return true
		}
		if tv, ok := info.Types[call.Fun]; ok && tv.IsType() {
			return true
		}
		cf := Callee(info, call)
		if cf != nil && p.FuncOf(cf) != nil {
			return true
		}
		if cf != nil {
			// interface method declared in the repo (MarshalerTo.MarshalJSONTo): dynamic target
			if sig := cf.Type().(*types.Signature); sig.Recv() == nil || !types.IsInterface(sig.Recv().Type()) {
				return true
			}
		}
		sig, _ := info.TypeOf(call.Fun).Underlying().(*types.Signature)
		if sig == nil {
			return true
		}
		if hasParamNamed(sig, "json", "addressableValue") {
			return true // internal arshaler dispatch
		}
		coder := false
		for _, a := range call.Args {
			t := info.TypeOf(a)
			if t != nil && (isNamed(t, pkgAlias["jsontext"], "Encoder") || isNamed(t, pkgAlias["jsontext"], "Decoder")) {
				if _, isPtr := t.(*types.Pointer); isPtr {
					coder = true
				}
			}
		}
		if coder {
			out = append(out, call)
		}
		return true
	})
	return out
}

// stmtListOf returns the statement list containing st and its index.
func stmtListOf(p *Program, f *FuncInfo, st ast.Node) ([]ast.Stmt, int) {
	for st != nil {
		par := p.Parent(f.File, st)
		var list []ast.Stmt
		switch b := par.(type) {
		case *ast.BlockStmt:
			list = b.List
		case *ast.CaseClause:
			list = b.Body
		}
		if list != nil {
			for i, s := range list {
				if ast.Node(s) == st {
					return list, i
				}
			}
		}
		st = par
		if _, ok := par.(*ast.FuncLit); ok {
			return nil, -1
		}
	}
	return nil, -1
}

func ruleUSER2(c *Ctx) {
	p := c.P
	ft := p.Flags()
	within := ft.Single["WithinArshalCall"]
	n := 0
	for _, f := range p.FuncsIn("json") {
		if f.Body() == nil {
			continue
		}
		info := f.Info()
		for _, call := range userCoderCalls(p, f) {
			n++
			key := "bracket:" + f.Name
			list, idx := stmtListOf(p, f, call)
			if list == nil {
				c.Violation(key, call.Pos(), "user call is not a plain statement of a block")
				continue
			}
			isSet := func(st ast.Stmt, bit uint64) bool {
				es, ok := st.(*ast.ExprStmt)
				if !ok {
					return false
				}
				cl, ok := es.X.(*ast.CallExpr)
				if !ok {
					return false
				}
				m, _, v, ok := FlagCall(info, cl)
				return ok && m == "Set" && v&^1 == within && v&1 == bit
			}
			isDL := func(st ast.Stmt) (d, l types.Object, ok bool) {
				as, isAs := st.(*ast.AssignStmt)
				if !isAs || len(as.Lhs) != 2 || len(as.Rhs) != 1 {
					return nil, nil, false
				}
				cl, isCall := ast.Unparen(as.Rhs[0]).(*ast.CallExpr)
				if !isCall {
					return nil, nil, false
				}
				if _, isM := MethodCall(info, cl, "jsontext", "stateMachine", "DepthLength"); !isM {
					return nil, nil, false
				}
				return IdentObj(info, as.Lhs[0]), IdentObj(info, as.Lhs[1]), true
			}
			var problems []string
			// Set(|1) before: scan backwards over the statements between capture and call (only the type assertion may intervene)
			set1, set0 := -1, -1
			for i := idx - 1; i >= 0 && i >= idx-3; i-- {
				if isSet(list[i], 1) {
					set1 = i
					break
				}
			}
			if set1 < 0 {
				problems = append(problems, "Flags.Set(WithinArshalCall|1) does not immediately precede the call")
			}
			// the clear may be the restoring form `if !wasWithin { Set(WithinArshalCall|0) }`
			isRestore := func(st ast.Stmt) bool {
				ifs, ok := st.(*ast.IfStmt)
				if !ok || ifs.Else != nil || len(ifs.Body.List) != 1 || !isSet(ifs.Body.List[0], 0) {
					return false
				}
				u, ok := ast.Unparen(ifs.Cond).(*ast.UnaryExpr)
				if !ok || u.Op != token.NOT {
					return false
				}
				v := IdentObj(info, u.X)
				if v == nil {
					return false
				}
				for _, d := range defsOf(info, f.Body(), v) {
					if gv, isGet := IsFlagGet(info, d); isGet && gv&^1 == within {
						return true
					}
				}
				return false
			}
			if idx+1 < len(list) && (isSet(list[idx+1], 0) || isRestore(list[idx+1])) {
				set0 = idx + 1
			} else {
				problems = append(problems, "Flags.Set(WithinArshalCall|0) does not immediately follow the call")
			}
			var pd, pl, cd, cl types.Object
			for i := 0; i < idx; i++ {
				if d, l, ok := isDL(list[i]); ok {
					pd, pl = d, l
				}
			}
			for i := idx + 1; i < len(list); i++ {
				if d, l, ok := isDL(list[i]); ok {
					cd, cl = d, l
					break
				}
			}
			if pd == nil || cd == nil {
				problems = append(problems, "Tokens.DepthLength() is not captured both before and after the call")
			}
			_ = set0
			// error variable of the call
			var errVar types.Object
			if as, ok := list[idx].(*ast.AssignStmt); ok && len(as.Lhs) >= 1 {
				errVar = IdentObj(info, as.Lhs[len(as.Lhs)-1])
			}
			if errVar == nil {
				problems = append(problems, "the error of the user call is not kept in a variable")
			}
			mentions := func(e ast.Expr, objs ...types.Object) bool {
				for _, o := range objs {
					if o == nil || !usesObj(info, e, o) {
						return false
					}
				}
				return true
			}
			if pd != nil && cd != nil && errVar != nil {
				// singular-value check
				okSingle := false
				for i := idx + 1; i < len(list); i++ {
					ifs, ok := list[i].(*ast.IfStmt)
					if !ok || !mentions(ifs.Cond, pd, cd, pl, cl) {
						continue
					}
					plus1, neqDepth, errNil := false, false, false
					ast.Inspect(ifs.Cond, func(nd ast.Node) bool {
						be, ok := nd.(*ast.BinaryExpr)
						if !ok {
							return true
						}
						if be.Op == token.NEQ {
							for _, pair := range [][2]ast.Expr{{be.X, be.Y}, {be.Y, be.X}} {
								if add, ok := ast.Unparen(pair[0]).(*ast.BinaryExpr); ok && add.Op == token.ADD && IdentObj(info, add.X) == pl {
									if v, isC := ConstI64(info, add.Y); isC && v == 1 && IdentObj(info, pair[1]) == cl {
										plus1 = true
									}
								}
								if IdentObj(info, pair[0]) == pd && IdentObj(info, pair[1]) == cd {
									neqDepth = true
								}
							}
						}
						if v, nonNil, ok := ErrCmp(info, be); ok && v == errVar && !nonNil {
							errNil = true
						}
						return true
					})
					assigns := false
					for _, as := range findAll[*ast.AssignStmt](ifs.Body) {
						for j, l := range as.Lhs {
							if IdentObj(info, l) == errVar && j < len(as.Rhs) && !IsNilIdent(info, as.Rhs[j]) {
								assigns = true
							}
						}
					}
					if plus1 && neqDepth && errNil && assigns {
						okSingle = true
					}
					break
				}
				if !okSingle {
					problems = append(problems, "no check that turns success into an error unless depth is unchanged and length grew by exactly one (prevDepth != currDepth || prevLength+1 != currLength) && err == nil")
				}
				// ErrUnsupported fall-through guarded by equality of both pairs
				for _, ifs := range findAll[*ast.IfStmt](&ast.BlockStmt{List: list[idx+1:]}) {
					isUnsup := false
					ast.Inspect(ifs.Cond, func(nd ast.Node) bool {
						if cl2, ok := nd.(*ast.CallExpr); ok && FuncCall(info, cl2, "errors", "Is") && len(cl2.Args) == 2 {
							if o := IdentOrSelObj(info, cl2.Args[1]); o != nil && o.Name() == "ErrUnsupported" {
								isUnsup = true
							}
						}
						return true
					})
					if !isUnsup {
						continue
					}
					for _, r := range findAll[*ast.ReturnStmt](ifs.Body) {
						guardOK := false
						for _, cc := range enclosingConds(p, f, r) {
							if !cc.then {
								continue
							}
							eqD, eqL := false, false
							for _, cj := range conjuncts(cc.cond) {
								if be, ok := cj.(*ast.BinaryExpr); ok && be.Op == token.EQL {
									if (IdentObj(info, be.X) == pd && IdentObj(info, be.Y) == cd) || (IdentObj(info, be.X) == cd && IdentObj(info, be.Y) == pd) {
										eqD = true
									}
									if (IdentObj(info, be.X) == pl && IdentObj(info, be.Y) == cl) || (IdentObj(info, be.X) == cl && IdentObj(info, be.Y) == pl) {
										eqL = true
									}
								}
							}
							if eqD && eqL {
								guardOK = true
							}
						}
						if !guardOK {
							problems = append(problems, "ErrUnsupported fall-through at "+p.Position(r.Pos())+" is not guarded by prevDepth == currDepth && prevLength == currLength")
						}
					}
				}
			}
			c.Oblige(key, call.Pos(), len(problems) == 0, strings.Join(problems, "; "))
		}
	}
	c.Floor("calls that hand the coder to user code", n, 4)
}

func ruleUSER1(c *Ctx) {
	p := c.P
	n := 0
	for _, f := range p.FuncsIn("json", "v1") {
		if f.Body() == nil {
			continue
		}
		info := f.Info()
		// sources: dynamic calls returning ([]byte, error) whose target is user code
		InspectNoLit(f.Body(), func(nd ast.Node) bool {
			as, ok := nd.(*ast.AssignStmt)
			if !ok || len(as.Rhs) != 1 || len(as.Lhs) != 2 {
				return true
			}
			call, ok := ast.Unparen(as.Rhs[0]).(*ast.CallExpr)
			if !ok {
				return true
			}
			cf := Callee(info, call)
			isUser := false
			what := ""
			if cf != nil {
				sig := cf.Type().(*types.Signature)
				if sig.Recv() != nil && types.IsInterface(sig.Recv().Type()) && (cf.Name() == "MarshalJSON" || cf.Name() == "MarshalText" || cf.Name() == "AppendText") {
					isUser, what = true, cf.Name()
				}
			} else if sig, _ := info.TypeOf(call.Fun).Underlying().(*types.Signature); sig != nil {
				// func value of type func(T) ([]byte, error) that is a parameter of the enclosing declaration
				if sig.Results().Len() == 2 && isByteSlice(sig.Results().At(0).Type()) && isErrorType(sig.Results().At(1).Type()) && !hasParamNamed(sig, "json", "addressableValue") {
					if v, _ := IdentObj(info, call.Fun).(*types.Var); v != nil {
						decl := p.enclosingDecl(f)
						if decl != nil && decl.Obj != nil {
							ds := decl.Obj.Type().(*types.Signature)
							for i := 0; i < ds.Params().Len(); i++ {
								if ds.Params().At(i) == v {
									isUser, what = true, "func value "+v.Name()
								}
							}
						}
					}
				}
			}
			if !isUser {
				return true
			}
			n++
			res := IdentObj(info, as.Lhs[0])
			if res == nil {
				return true
			}
			// every use of res
			var bad []string
			scope := p.enclosingDecl(f)
			root := ast.Node(f.Body())
			if scope != nil {
				root = scope.Body()
			}
			ast.Inspect(root, func(m ast.Node) bool {
				id, ok := m.(*ast.Ident)
				if !ok || info.Uses[id] != res {
					return true
				}
				par := p.Parent(f.File, id)
				if call2, ok := par.(*ast.CallExpr); ok {
					if _, ok := MethodCall(info, call2, "jsontext", "Encoder", "WriteValue"); ok && len(call2.Args) == 1 {
						return true
					}
					if IsBuiltin(info, call2, "len") {
						return true
					}
					if IsBuiltin(info, call2, "append") && len(call2.Args) == 2 && call2.Args[1] == ast.Expr(id) {
						// inside an AppendRaw(..., false, func) callback?
						var x ast.Node = call2
						for x != nil {
							x = p.Parent(f.File, x)
							if lit, ok := x.(*ast.FuncLit); ok {
								isRawFalse := func(outer *ast.CallExpr) bool {
									if _, ok := MethodCall(info, outer, "jsontext", "encoderState", "AppendRaw"); ok && len(outer.Args) == 3 {
										if tv, ok := info.Types[outer.Args[1]]; ok && tv.Value != nil && tv.Value.String() == "false" {
											return true
										}
									}
									return false
								}
								if outer, ok := p.Parent(f.File, lit).(*ast.CallExpr); ok && isRawFalse(outer) {
									return true
								}
								// the callback may first be bound to a local: every use of that local must then be
								// the producer argument of AppendRaw(_, false, _)
								if as, ok := p.Parent(f.File, lit).(*ast.AssignStmt); ok && len(as.Lhs) == 1 && len(as.Rhs) == 1 {
									if v := IdentObj(info, as.Lhs[0]); v != nil {
										uses, okUses := 0, true
										var encl ast.Node = f.File
										if d := p.enclosingDecl(f); d != nil && d.Body() != nil {
											encl = d.Body()
										}
										ast.Inspect(encl, func(q ast.Node) bool {
											id2, ok := q.(*ast.Ident)
											if !ok || info.Uses[id2] != v {
												return true
											}
											uses++
											outer, ok := p.Parent(f.File, id2).(*ast.CallExpr)
											if !ok || !isRawFalse(outer) || outer.Args[2] != ast.Expr(id2) {
												okUses = false
											}
											return true
										})
										if uses > 0 && okUses {
											return true
										}
									}
								}
								break
							}
						}
					}
				}
				bad = append(bad, p.Position(id.Pos()))
				return true
			})
			c.Oblige(fmt.Sprintf("revalidated:%s:%s", f.Name, what), call.Pos(), len(bad) == 0, "bytes returned by user code ("+what+") are used without re-validation at "+strings.Join(bad, ", "))
			return true
		})
		// AppendText method values
		InspectNoLit(f.Body(), func(nd ast.Node) bool {
			sel, ok := nd.(*ast.SelectorExpr)
			if !ok || sel.Sel.Name != "AppendText" {
				return true
			}
			s := info.Selections[sel]
			if s == nil || !types.IsInterface(s.Recv()) {
				return true
			}
			if outer, ok := p.Parent(f.File, sel).(*ast.CallExpr); ok && ast.Unparen(outer.Fun) == ast.Expr(sel) {
				return true // a call: its result is followed like that of MarshalText above
			}
			n++
			okUse := false
			if outer, ok := p.Parent(f.File, sel).(*ast.CallExpr); ok {
				if _, ok := MethodCall(info, outer, "jsontext", "encoderState", "AppendRaw"); ok && len(outer.Args) == 3 && outer.Args[2] == ast.Expr(sel) {
					if tv, ok := info.Types[outer.Args[1]]; ok && tv.Value != nil && tv.Value.String() == "false" {
						okUse = true
					}
				}
			}
			c.Oblige("revalidated:"+f.Name+":AppendText", sel.Pos(), okUse, "TextAppender.AppendText output is not routed through AppendRaw with safeASCII=false")
			return true
		})
	}
	c.Floor("sources of bytes produced by user code", n, 4)
}

func rulePREC1(c *Ctx) {
	p := c.P
	// a/b: makeMethodArshaler
	if f := p.Func("json.makeMethodArshaler"); f == nil || f.Body() == nil {
		c.Undecide("json.makeMethodArshaler", "function missing")
	} else {
		var order []string
		// the installation blocks in statement order, following calls to private helpers the
		// function may have been split into (each helper's blocks take the place of the call)
		var collect func(g *FuncInfo, depth int)
		collect = func(g *FuncInfo, depth int) {
			info := g.Info()
			for _, st := range g.Body().List {
				ifs, ok := st.(*ast.IfStmt)
				if !ok || ifs.Init == nil {
					if depth < 2 {
						for _, call := range CallsIn(st) {
							if h := p.InlineAny(g)(call); h != nil && h.Decl != nil {
								collect(h, depth+1)
							}
						}
					}
					continue
				}
				as, ok := ifs.Init.(*ast.AssignStmt)
				if !ok || len(as.Rhs) != 1 {
					continue
				}
				call, ok := ast.Unparen(as.Rhs[0]).(*ast.CallExpr)
				if !ok || !FuncCall(info, call, "json", "implements") || len(call.Args) != 2 {
					continue
				}
				if o := IdentObj(info, call.Args[1]); o != nil {
					// which field does the block replace?
					which := ""
					setsNonDefault := false
					for _, fs := range fieldStores(info, ifs.Body, false) {
						if fs.Field.Name() == "marshal" || fs.Field.Name() == "unmarshal" {
							which = fs.Field.Name()
						}
						if fs.Field.Name() == "nonDefault" {
							if as, ok := fs.Stmt.(*ast.AssignStmt); ok && len(as.Rhs) == 1 && isTrueConst(info, as.Rhs[0]) {
								setsNonDefault = true
							}
						}
					}
					order = append(order, which+":"+o.Name())
					// every block that installs a method wrapper also declares the type non-default
					// (map-key uniqueness, omitempty and the Deterministic fast paths rely on that bit)
					c.Oblige("installer-sets-nondefault:"+o.Name(), ifs.Pos(), which == "" || setsNonDefault,
						"the block that installs the "+which+" wrapper for "+o.Name()+" does not set fncs.nonDefault = true: callers would treat the type as having its default representation")
				}
			}
		}
		collect(f, 0)
		want := []string{"marshal:textMarshalerType", "marshal:textAppenderType", "marshal:jsonMarshalerType", "marshal:jsonMarshalerToType",
			"unmarshal:textUnmarshalerType", "unmarshal:jsonUnmarshalerType", "unmarshal:jsonUnmarshalerFromType"}
		var gm, gu, wm, wu []string
		for _, o := range order {
			if strings.HasPrefix(o, "marshal:") {
				gm = append(gm, o)
			} else {
				gu = append(gu, o)
			}
		}
		for _, o := range want {
			if strings.HasPrefix(o, "marshal:") {
				wm = append(wm, o)
			} else {
				wu = append(wu, o)
			}
		}
		c.Oblige("method-order:marshal", f.Pos(), strings.Join(gm, ",") == strings.Join(wm, ","), "installation order is "+strings.Join(gm, ",")+" (last wins; documented precedence needs "+strings.Join(wm, ",")+")")
		c.Oblige("method-order:unmarshal", f.Pos(), strings.Join(gu, ",") == strings.Join(wu, ","), "installation order is "+strings.Join(gu, ",")+" (documented precedence needs "+strings.Join(wu, ",")+")")
		// each wrapper falls back to the composition that existed right before it was installed:
		// the captured `prev := fncs.marshal` lives in the same block as the closure that calls it
		msigP, usigP := marshalerSig(p), unmarshalerSig(p)
		info := f.Info()
		outerF := f
		for _, f := range p.CalleeClosure(outerF, 2) {
			if f.Decl == nil {
				continue
			}
			for _, lit := range findAllDeep[*ast.FuncLit](f.Body()) {
				lf := p.LitInfo(lit)
				if lf == nil {
					continue
				}
				if t := info.TypeOf(lit); t != nil {
					if sg, ok := t.Underlying().(*types.Signature); !ok || !((msigP != nil && types.Identical(sg, msigP)) || (usigP != nil && types.Identical(sg, usigP))) {
						continue
					}
				}
				litBlock := p.Parent(f.File, p.Parent(f.File, lit)) // AssignStmt -> enclosing block
				InspectNoLit(lit.Body, func(nd ast.Node) bool {
					call, ok := nd.(*ast.CallExpr)
					if !ok || Callee(info, call) != nil {
						return true
					}
					v := IdentObj(info, call.Fun)
					if v == nil {
						return true
					}
					defs := defsOf(info, f.Body(), v)
					if len(defs) != 1 {
						return true
					}
					if fld := SelField(info, defs[0]); fld == nil || (fld.Name() != "marshal" && fld.Name() != "unmarshal") {
						return true
					}
					// the definition statement's block
					var defStmt ast.Node
					ast.Inspect(f.Body(), func(m ast.Node) bool {
						if as, ok := m.(*ast.AssignStmt); ok {
							for i, l := range as.Lhs {
								if IdentObj(info, l) == v && as.Tok == token.DEFINE && i < len(as.Rhs) {
									defStmt = as
								}
							}
						}
						return true
					})
					sameBlock := defStmt != nil && p.Parent(f.File, defStmt) == litBlock
					c.Oblige("fallback-to-previous:"+lf.Name, call.Pos(), sameBlock, "the wrapper falls back to `"+v.Name()+"`, which was not captured right before this wrapper was installed: declining with ErrUnsupported would skip the lower-priority methods")
					return true
				})
			}
		}
		// early return for pointer and interface kinds
		early := false
		if len(f.Body().List) > 0 {
			if ifs, ok := f.Body().List[0].(*ast.IfStmt); ok {
				kinds := map[string]bool{}
				ast.Inspect(ifs.Cond, func(nd ast.Node) bool {
					if be, ok := nd.(*ast.BinaryExpr); ok && be.Op == token.EQL {
						if o := IdentOrSelObj(info, be.Y); o != nil && o.Pkg() != nil && o.Pkg().Path() == "reflect" {
							kinds[o.Name()] = true
						}
					}
					return true
				})
				early = kinds["Pointer"] && kinds["Interface"] && len(findAll[*ast.ReturnStmt](ifs.Body)) == 1
			}
		}
		c.Oblige("no-methods-on-pointer-or-interface-kinds", f.Pos(), early, "makeMethodArshaler does not return early for pointer and interface kinds (methods would be called on nil pointers / twice)")
	}
	// c: lookupArshaler composition order
	if f := p.Func("json.lookupArshaler"); f == nil || f.Body() == nil {
		c.Undecide("json.lookupArshaler", "function missing")
	} else {
		var seq []string
		for _, call := range findAll[*ast.CallExpr](f.Body()) {
			if cf := Callee(f.Info(), call); cf != nil && strings.HasPrefix(cf.Name(), "make") && strings.HasSuffix(cf.Name(), "Arshaler") {
				seq = append(seq, cf.Name())
			}
		}
		c.Oblige("composition-order", f.Pos(), strings.Join(seq, ",") == "makeDefaultArshaler,makeMethodArshaler,makeTimeArshaler", "composition order is "+strings.Join(seq, ","))
	}
	// d: typedArshalers.lookup
	if f := p.Func("json.(*typedArshalers).lookup"); f == nil || f.Body() == nil {
		c.Undecide("json.(*typedArshalers).lookup", "function missing")
	} else {
		okScan, okFallback := false, false
		lookupF := f
		scope := p.CalleeClosure(lookupF, 2)
		for _, f := range scope {
			if f.Decl == nil {
				continue
			}
			info := f.Info()
			for _, rs := range findAll[*ast.RangeStmt](f.Body()) {
				if fld := SelField(info, rs.X); fld != nil && fld.Name() == "fncVals" {
					// break under !maySkip, castableTo filter with continue
					hasBreak := false
					for _, ifs := range findAll[*ast.IfStmt](rs.Body) {
						if u, ok := ast.Unparen(ifs.Cond).(*ast.UnaryExpr); ok && u.Op == token.NOT {
							if fl := SelField(info, u.X); fl != nil && fl.Name() == "maySkip" {
								for _, b := range findAll[*ast.BranchStmt](ifs.Body) {
									if b.Tok == token.BREAK {
										hasBreak = true
									}
								}
							}
						}
					}
					okScan = okScan || hasBreak
				}
			}
			for _, lit := range findAllDeep[*ast.FuncLit](f.Body()) {
				// for _, fnc := range fncs { if err := fnc(...); !errors.Is(err, ErrUnsupported) { return err } }; return fncDefault(...)
				hasLoop := false
				for _, rs := range findAll[*ast.RangeStmt](lit.Body) {
					for _, ifs := range findAll[*ast.IfStmt](rs.Body) {
						neg := false
						if u, ok := ast.Unparen(ifs.Cond).(*ast.UnaryExpr); ok && u.Op == token.NOT {
							if cl, ok := ast.Unparen(u.X).(*ast.CallExpr); ok && FuncCall(info, cl, "errors", "Is") {
								neg = true
							}
						}
						if neg && len(findAll[*ast.ReturnStmt](ifs.Body)) > 0 {
							hasLoop = true
						}
					}
				}
				if len(lit.Body.List) == 0 {
					continue
				}
				last := lit.Body.List[len(lit.Body.List)-1]
				r, ok := last.(*ast.ReturnStmt)
				if !ok || !hasLoop || len(r.Results) != 1 {
					continue
				}
				cl, ok := ast.Unparen(r.Results[0]).(*ast.CallExpr)
				if !ok {
					continue
				}
				v := IdentObj(info, cl.Fun)
				if v == nil || f.Obj == nil {
					continue
				}
				// the fallback is the default arshaler handed to lookup: lookup's own first parameter
				// (directly or through a local), or — in a helper — the helper parameter that receives it
				isLookupParam := func(g *FuncInfo, e ast.Expr) bool {
					o := IdentObj(g.Info(), e)
					gs := g.Obj.Type().(*types.Signature)
					if gs.Params().Len() > 0 && gs.Params().At(0) == o {
						return true
					}
					for _, d := range defsOf(g.Info(), g.Body(), o) {
						if pv, _ := IdentObj(g.Info(), d).(*types.Var); pv != nil && gs.Params().Len() > 0 && gs.Params().At(0) == pv {
							return true
						}
					}
					return false
				}
				if f == lookupF {
					if isLookupParam(f, cl.Fun) {
						okFallback = true
					}
					continue
				}
				sig := f.Obj.Type().(*types.Signature)
				for i := 0; i < sig.Params().Len(); i++ {
					if sig.Params().At(i) != v {
						continue
					}
					InspectNoLit(lookupF.Body(), func(nd ast.Node) bool {
						if call, ok := nd.(*ast.CallExpr); ok && Callee(lookupF.Info(), call) == f.Obj && i < len(call.Args) && isLookupParam(lookupF, call.Args[i]) {
							okFallback = true
						}
						return true
					})
				}
			}
		}
		c.Oblige("funcs-in-list-order", f.Pos(), okScan, "the scan over fncVals does not stop at the first entry that cannot skip")
		c.Oblige("funcs-fall-back-to-default", f.Pos(), okFallback, "the composed function does not try each function in order and fall back to the default arshaler after ErrUnsupported")
	}
	// e: every dispatch consults the option-supplied functions
	msig, usig := marshalerSig(p), unmarshalerSig(p)
	marshalersF := p.Field("jsonopts", "ArshalValues", "Marshalers")
	unmarshalersF := p.Field("jsonopts", "ArshalValues", "Unmarshalers")
	nDisp := 0
	for _, f := range p.FuncsIn("json") {
		if f.Body() == nil {
			continue
		}
		info := f.Info()
		// vars assigned from X.marshal / X.unmarshal (field of arshaler)
		type vinfo struct {
			unmar bool
		}
		cand := map[types.Object]vinfo{}
		InspectNoLit(f.Body(), func(nd ast.Node) bool {
			as, ok := nd.(*ast.AssignStmt)
			if !ok || len(as.Lhs) != len(as.Rhs) {
				return true
			}
			for i, r := range as.Rhs {
				if fld := SelField(info, r); fld != nil && (fld == p.Field("json", "arshaler", "marshal") || fld == p.Field("json", "arshaler", "unmarshal")) {
					if v := IdentObj(info, as.Lhs[i]); v != nil {
						// skip wrappers of the previously composed function (same type)
						if decl := p.enclosingDecl(f); decl != nil && decl.Obj != nil {
							if sel, ok := ast.Unparen(r).(*ast.SelectorExpr); ok {
								if xo, _ := IdentObj(info, sel.X).(*types.Var); xo != nil {
									ds := decl.Obj.Type().(*types.Signature)
									isParam := false
									for j := 0; j < ds.Params().Len(); j++ {
										if ds.Params().At(j) == xo {
											isParam = true
										}
									}
									if isParam {
										continue
									}
								}
							}
						}
						cand[v] = vinfo{unmar: fld.Name() == "unmarshal"}
					}
				}
			}
			return true
		})
		if len(cand) == 0 {
			continue
		}
		idx := map[types.Object]uint{}
		for v := range cand {
			idx[v] = uint(len(idx))
		}
		type st struct{ consulted uint64 }
		bad := map[types.Object]string{}
		called := map[types.Object]bool{}
		fl := &Flow[st]{Fn: f}
		visit := func(nd ast.Node, s st) st {
			for _, call := range CallsIn(nd) {
				v := IdentObj(info, call.Fun)
				if v == nil {
					continue
				}
				if _, isC := cand[v]; !isC || Callee(info, call) != nil {
					continue
				}
				t := info.TypeOf(call.Fun)
				sg, _ := types.Unalias(t).Underlying().(*types.Signature)
				if sg == nil || !((msig != nil && types.Identical(sg, msig)) || (usig != nil && types.Identical(sg, usig))) {
					continue
				}
				called[v] = true
				if s.consulted&(1<<idx[v]) == 0 && bad[v] == "" {
					bad[v] = "dispatched at " + p.Position(call.Pos()) + " on a path that did not consult the caller-supplied functions"
				}
			}
			return s
		}
		fl.Node = func(nd ast.Node, s st) []st {
			s = visit(nd, s)
			if as, ok := nd.(*ast.AssignStmt); ok {
				// v, _ = X.lookup(v, T)
				if len(as.Rhs) == 1 {
					if call, ok := ast.Unparen(as.Rhs[0]).(*ast.CallExpr); ok {
						if cf := Callee(info, call); cf != nil && cf.Name() == "lookup" && len(call.Args) >= 1 {
							if v := IdentObj(info, as.Lhs[0]); v != nil && IdentObj(info, call.Args[0]) == v {
								if i, ok := idx[v]; ok {
									s.consulted |= 1 << i
								}
							}
						}
					}
				}
				// (re)definition from the arshaler field resets
				if len(as.Lhs) == len(as.Rhs) {
					for i, r := range as.Rhs {
						if fld := SelField(info, r); fld != nil && (fld.Name() == "marshal" || fld.Name() == "unmarshal") {
							if v := IdentObj(info, as.Lhs[i]); v != nil {
								if j, ok := idx[v]; ok {
									s.consulted &^= 1 << j
								}
							}
						}
					}
				}
			}
			if _, ok := nd.(*ast.ReturnStmt); ok {
				return nil
			}
			return []st{s}
		}
		fl.Leaf = func(e ast.Expr, s st) (t, fs []st) {
			s = visit(e, s)
			// X.Marshalers != nil : false branch means there is nothing to consult
			if be, ok := e.(*ast.BinaryExpr); ok && (be.Op == token.NEQ || be.Op == token.EQL) && IsNilIdent(info, be.Y) {
				if fld := SelField(info, be.X); fld != nil && (fld == marshalersF || fld == unmarshalersF) {
					sNil := s
					for v, vi := range cand {
						if vi.unmar == (fld == unmarshalersF) {
							sNil.consulted |= 1 << idx[v]
						}
					}
					if be.Op == token.NEQ {
						return []st{s}, []st{sNil}
					}
					return []st{sNil}, []st{s}
				}
			}
			return []st{s}, []st{s}
		}
		fl.Run(st{})
		var vs []types.Object
		for v := range cand {
			if called[v] {
				vs = append(vs, v)
			}
		}
		sort.Slice(vs, func(i, j int) bool { return vs[i].Pos() < vs[j].Pos() })
		for _, v := range vs {
			nDisp++
			c.Oblige("consults-caller-functions:"+f.Name+":"+v.Name(), v.Pos(), bad[v] == "", bad[v])
		}
	}
	c.Floor("dispatch sites through an arshaler's marshal/unmarshal", nDisp, 12)
}

// ---- ERR-1 -------------------------------------------------------------------

// errExceptions: function -> callee -> reason. Frozen after reading each site.
var errExceptions = map[string]map[string]string{}

func ruleERR1(c *Ctx) {
	p := c.P
	msig, usig := marshalerSig(p), unmarshalerSig(p)
	watched := func(info *types.Info, call *ast.CallExpr) (string, bool) {
		cf := Callee(info, call)
		if cf == nil {
			t := info.TypeOf(call.Fun)
			if t == nil {
				return "", false
			}
			sg, _ := types.Unalias(t).Underlying().(*types.Signature)
			if sg != nil && ((msig != nil && types.Identical(sg, msig)) || (usig != nil && types.Identical(sg, usig))) {
				return "arshaler dispatch", true
			}
			return "", false
		}
		sig := cf.Type().(*types.Signature)
		hasErr := false
		for i := 0; i < sig.Results().Len(); i++ {
			if isErrorType(sig.Results().At(i).Type()) {
				hasErr = true
			}
		}
		if !hasErr {
			return "", false
		}
		qn := QualName(cf)
		if sig.Recv() != nil {
			_, tn := recvTypeName(sig.Recv().Type())
			if cf.Pkg() != nil && cf.Pkg().Path() == pkgAlias["jsontext"] && (tn == "Encoder" || tn == "Decoder" || tn == "encoderState" || tn == "decoderState" || tn == "stateMachine") {
				return qn, true
			}
			return "", false
		}
		if cf.Pkg() != nil && cf.Pkg().Path() == pkgAlias["jsonwire"] {
			switch {
			case cf.Name() == "AppendQuote", cf.Name() == "AppendUnquote", cf.Name() == "ReformatString", strings.HasPrefix(cf.Name(), "ConsumeString"):
				return qn, true
			}
		}
		if cf.Pkg() != nil && cf.Pkg().Path() == pkgAlias["jsontext"] && (cf.Name() == "AppendQuote" || cf.Name() == "AppendUnquote") {
			return qn, true
		}
		return "", false
	}
	nChecked := 0
	for _, f := range p.FuncsIn("json", "jsontext", "v1") {
		if f.Body() == nil {
			continue
		}
		info := f.Info()
		discard := func(call *ast.CallExpr, how string) {
			name, ok := watched(info, call)
			if !ok {
				return
			}
			nChecked++
			short := name
			key := fmt.Sprintf("discarded:%s:%s", f.Name, short)
			if reason, ok := errIgnoreReason(p, f, call, name); ok {
				c.OK(key, call.Pos(), "exception: "+reason)
				return
			}
			c.Violation(key, call.Pos(), "error result of "+name+" is discarded ("+how+")")
		}
		InspectNoLit(f.Body(), func(nd ast.Node) bool {
			switch x := nd.(type) {
			case *ast.ExprStmt:
				if call, ok := x.X.(*ast.CallExpr); ok {
					discard(call, "bare call")
				}
			case *ast.AssignStmt:
				if len(x.Rhs) == 1 {
					if call, ok := ast.Unparen(x.Rhs[0]).(*ast.CallExpr); ok {
						// position of the error result
						t := info.TypeOf(call)
						if tup, ok := t.(*types.Tuple); ok && tup.Len() == len(x.Lhs) {
							for i := 0; i < tup.Len(); i++ {
								if isErrorType(tup.At(i).Type()) {
									if id, ok := x.Lhs[i].(*ast.Ident); ok && id.Name == "_" {
										discard(call, "assigned to _")
									}
								}
							}
						} else if len(x.Lhs) == 1 && isErrorType(t) {
							if id, ok := x.Lhs[0].(*ast.Ident); ok && id.Name == "_" {
								discard(call, "assigned to _")
							}
						}
					}
				}
			case *ast.DeferStmt:
				discard(x.Call, "deferred")
			case *ast.GoStmt:
				discard(x.Call, "go statement")
			}
			return true
		})
	}
	// all watched call sites are counted so that the rule cannot pass vacuously
	total := 0
	for _, f := range p.FuncsIn("json", "jsontext", "v1") {
		if f.Body() == nil {
			continue
		}
		InspectNoLit(f.Body(), func(nd ast.Node) bool {
			if call, ok := nd.(*ast.CallExpr); ok {
				if _, ok := watched(f.Info(), call); ok {
					total++
				}
			}
			return true
		})
	}
	c.Floor("watched error-returning call sites", total, 150)
	c.OK("summary", token.NoPos, fmt.Sprintf("%d watched call sites, %d discard their error (all in the exception table)", total, nChecked))
}

// errIgnoreTable is the frozen exception table of ERR-1: function -> callee (short name) -> one-line reason.
// Each entry was confirmed by reading the site; a new discard site anywhere else is reported.
var errIgnoreTable = map[string]map[string]string{
	"jsontext.(*objectNameStack).copyQuotedBuffer": {"AppendUnquote": "the name was validated by the tokenizer before its offset was recorded (TXN-2 orders validation before recording)"},
	"jsontext.(*objectNamespace).insert":           {"AppendUnquote": "insertQuoted is only given names the tokenizer already validated"},
	"jsonwire.ReformatString":                      {"AppendUnquote": "round trip of a string that ConsumeString accepted just above", "AppendQuote": "input is the unquoted form of a validated string; flags only decide spelling"},
	"json.newDuplicateNameError":                   {"AppendUnquote": "the quoted name comes from a token the coder already validated; used for the error text only"},
	"json.makeStructArshaler:marshal":              {"AppendQuote": "f.name was checked when the struct fields were parsed; only the spelling can differ under escape options"},
	"json.parseFieldOptions":                       {"AppendQuote": "only computes the pre-quoted spelling; invalid UTF-8 in the name is reported separately by the same function"},
	"jsontext.mustReorderObjectsFromDecoder":       {"ReadValue": "documented precondition: the value was validated by reformatValue before reordering (scratch decoder over validated bytes)", "ReadToken": "same precondition; a failure would be a BUG and the default branch panics on it"},
	"v1.transformUnmarshalError":                   {"AppendUnquote": "formats an error message from the JSON value of an already reported error; no output depends on it"},
}

func errIgnoreReason(p *Program, f *FuncInfo, call *ast.CallExpr, name string) (string, bool) {
	short := name[strings.LastIndex(name, ".")+1:]
	if m, ok := errIgnoreTable[f.Name]; ok {
		if r, ok := m[short]; ok {
			return r, true
		}
	}
	// a private helper of a reviewed function inherits its entries: f is unexported, lies in the
	// callee closure of the reviewed function, and is called from nowhere else
	self := f
	if d := p.enclosingDecl(f); d != nil {
		self = d
	}
	if self.Obj == nil || ast.IsExported(self.Obj.Name()) {
		return "", false
	}
	for _, rev := range sortedKeys(errIgnoreTable) {
		r, ok := errIgnoreTable[rev][short]
		if !ok {
			continue
		}
		rf := p.Func(rev)
		if rf == nil || rf.Body() == nil {
			continue
		}
		closure := p.CalleeClosure(rf, 3)
		in := map[*FuncInfo]bool{}
		for _, g := range closure {
			in[g] = true
		}
		if !in[self] || self == rf || self.Obj == nil {
			continue
		}
		private := true
		for _, caller := range callersOf(p, self.Obj) {
			cd := caller
			if d := p.enclosingDecl(caller); d != nil {
				cd = d
			}
			if !in[cd] && !in[caller] {
				private = false
			}
		}
		if private {
			return r + " (inherited by the private helper " + self.Name + " of " + rev + ")", true
		}
	}
	// a method on the same receiver type as a reviewed method (the reviewed method was renamed or split):
	// the justification is about the data the type holds (names already validated by the tokenizer)
	recvOf := func(fn *types.Func) string {
		sig, _ := fn.Type().(*types.Signature)
		if sig == nil || sig.Recv() == nil {
			return ""
		}
		t := sig.Recv().Type()
		if pt, ok := t.(*types.Pointer); ok {
			t = pt.Elem()
		}
		if nt, ok := t.(*types.Named); ok {
			return nt.Obj().Pkg().Path() + "." + nt.Obj().Name()
		}
		return ""
	}
	if rs := recvOf(self.Obj); rs != "" {
		for _, rev := range sortedKeys(errIgnoreTable) {
			r, ok := errIgnoreTable[rev][short]
			if !ok {
				continue
			}
			if rf := p.Func(rev); rf != nil && rf.Obj != nil && recvOf(rf.Obj) == rs {
				return r + " (same receiver type as the reviewed " + rev + ")", true
			}
			// the reviewed method no longer exists under that name: match by the receiver spelled in the key
			if i := strings.Index(rev, ".(*"); i >= 0 {
				if j := strings.Index(rev[i:], ")."); j > 0 {
					typ := rev[i+3 : i+j]
					if strings.HasSuffix(rs, "."+typ) && strings.HasPrefix(rev, self.Obj.Pkg().Name()+".") {
						return r + " (method of " + typ + ", reviewed as " + rev + ")", true
					}
				}
			}
		}
	}
	return "", false
}
