package main

import (
	"fmt"
	"go/ast"
	"go/token"
	"go/types"
	"sort"
	"strings"
)

func init() {
	register(&Rule{ID: "TABLE-ESC", Doc: "escape tables agree with the quoting code: escapeASCII marks every control byte, '\"', '\\\\' and the HTML-sensitive bytes '<' '>' '&'; NeedEscape reports U+FFFD (invalid UTF-8), U+2028 and U+2029; AppendQuote and the PreserveRawStrings branch of ReformatString escape exactly {<,>,&} under EscapeForHTML and {U+2028,U+2029} under EscapeForJS; ReformatString copies verbatim only under !AnyEscape; pre-quoted struct names come from AppendQuote and nameNeedEscape from NeedEscape", Run: ruleTABLEESC})
	register(&Rule{ID: "UNWRITE-2", Doc: "avoidFlush keeps everything an unwrite may need in the buffer: as a boolean function of the coder state it equals Length()==0 || needObjectValue() || (NeedObjectName() && len(Buf)>=2 && empty-value suffix), whatever its spelling; any additional condition that narrows it (for example only objects) lets a flush separate a name or an opening bracket from what UnwriteOnlyObjectMemberName / UnwriteEmptyObjectMember must take back", Run: ruleUNWRITE2})
	register(&Rule{ID: "UNWRITE-1", Doc: "the two-byte suffixes recognised by avoidFlush equal those recognised by UnwriteEmptyObjectMember (ll, \"\", {}, []), and each maps to the length of the corresponding empty value", Run: ruleUNWRITE1})
	register(&Rule{ID: "PTR-1", Doc: "JSON Pointer escape tables are inverse (RFC 6901 section 4): the writer maps '~' to \"~0\" and '/' to \"~1\"; the reader replaces \"~1\" by \"/\" and then \"~0\" by \"~\", in that order", Run: rulePTR1})
	register(&Rule{ID: "SINK-1", Doc: "bytes that bypass string validation are ASCII-safe by construction: every AppendRaw call with safeASCII=true only uses producers from the reviewed table (strconv.AppendInt/Uint, jsonwire.AppendFloat, base16/32/64 AppendEncode, appendDuration*, appendTimeUnix, Duration.String); a non-constant safeASCII must be the negation of hasCustomFormat; the pre-quoted struct member name is emitted only under !nameNeedEscape", Run: ruleSINK1})
}

// boolGroup is a maximal boolean expression with the rune constants it compares and the flags it reads.
type boolGroup struct {
	expr   ast.Expr
	consts map[int64]bool
	flags  uint64
	neq    bool
}

func boolGroups(p *Program, f *FuncInfo) []boolGroup {
	// the function and the private helpers it was split into
	var out []boolGroup
	for _, g := range p.CalleeClosure(f, 2) {
		out = append(out, boolGroupsIn(p, g)...)
	}
	return out
}

func boolGroupsIn(p *Program, f *FuncInfo) []boolGroup {
	info := f.Info()
	seen := map[ast.Expr]bool{}
	var out []boolGroup
	InspectNoLit(f.Body(), func(n ast.Node) bool {
		be, ok := n.(*ast.BinaryExpr)
		if !ok || (be.Op != token.EQL && be.Op != token.NEQ) {
			return true
		}
		_, c1 := ConstI64(info, be.X)
		_, c2 := ConstI64(info, be.Y)
		if !c1 && !c2 {
			return true
		}
		// climb to the maximal boolean expression
		var top ast.Expr = be
		for {
			par := p.Parent(f.File, top)
			switch x := par.(type) {
			case *ast.ParenExpr:
				top = x
				continue
			case *ast.UnaryExpr:
				if x.Op == token.NOT {
					top = x
					continue
				}
			case *ast.BinaryExpr:
				if x.Op == token.LAND || x.Op == token.LOR {
					top = x
					continue
				}
			}
			break
		}
		if seen[top] {
			return true
		}
		seen[top] = true
		g := boolGroup{expr: top, consts: map[int64]bool{}}
		ast.Inspect(top, func(m ast.Node) bool {
			switch y := m.(type) {
			case *ast.BinaryExpr:
				if y.Op == token.EQL || y.Op == token.NEQ {
					for _, side := range []ast.Expr{y.X, y.Y} {
						if v, isC := ConstI64(info, side); isC {
							g.consts[v] = true
							if y.Op == token.NEQ {
								g.neq = true
							}
						}
					}
				}
			case *ast.CallExpr:
				if m, _, v, ok := FlagCall(info, y); ok && m == "Get" {
					g.flags |= v &^ 1
				}
			case *ast.Ident:
				// a bool local defined once from a flag read (the look-up hoisted out of the loop)
				if lv, ok := IdentObj(info, y).(*types.Var); ok && !lv.IsField() {
					if b, isB := lv.Type().Underlying().(*types.Basic); isB && b.Kind() == types.Bool {
						if ds := defsOf(info, f.Body(), lv); len(ds) == 1 {
							ast.Inspect(ds[0], func(q ast.Node) bool {
								if c2, ok := q.(*ast.CallExpr); ok {
									if m2, _, v2, ok := FlagCall(info, c2); ok && m2 == "Get" {
										g.flags |= v2 &^ 1
									}
								}
								return true
							})
						}
					}
				}
			}
			return true
		})
		out = append(out, g)
		return true
	})
	return out
}

func hasGroup(gs []boolGroup, consts []int64, flag uint64) bool {
	for _, g := range gs {
		ok := true
		for _, c := range consts {
			if !g.consts[c] {
				ok = false
			}
		}
		if ok && (flag == 0 || g.flags&flag != 0) {
			return true
		}
	}
	return false
}

func ruleTABLEESC(c *Ctx) {
	p := c.P
	jw := p.Pkg("jsonwire")
	if jw == nil {
		c.Undecide("jsonwire", "package missing")
		return
	}
	ft := p.Flags()
	// escapeASCII table
	var tbl *ast.CompositeLit
	var tpos token.Pos
	for _, f := range jw.Syntax {
		for _, vs := range findAllDeep[*ast.ValueSpec](f) {
			for i, nm := range vs.Names {
				if nm.Name == "escapeASCII" && i < len(vs.Values) && jw.TypesInfo.Defs[nm] != nil && jw.TypesInfo.Defs[nm].Parent() == jw.Types.Scope() {
					tbl, _ = ast.Unparen(vs.Values[i]).(*ast.CompositeLit)
					tpos = nm.Pos()
				}
			}
		}
	}
	if tbl == nil {
		c.Undecide("jsonwire.escapeASCII", "table not found")
	} else {
		vals := map[int]int64{}
		idx := 0
		okShape := true
		for _, el := range tbl.Elts {
			if kv, isKV := el.(*ast.KeyValueExpr); isKV {
				k, ok1 := ConstI64(jw.TypesInfo, kv.Key)
				v, ok2 := ConstI64(jw.TypesInfo, kv.Value)
				if !ok1 || !ok2 {
					okShape = false
					continue
				}
				idx = int(k)
				vals[idx] = v
				idx++
				continue
			}
			v, ok := ConstI64(jw.TypesInfo, el)
			if !ok {
				okShape = false
			}
			vals[idx] = v
			idx++
		}
		var missing []string
		need := []int{'"', '\\', '<', '>', '&'}
		for b := 0; b < 0x20; b++ {
			need = append(need, b)
		}
		for _, b := range need {
			if vals[b] == 0 {
				missing = append(missing, fmt.Sprintf("%#x", b))
			}
		}
		sort.Strings(missing)
		c.Oblige("table:escapeASCII", tpos, okShape && idx >= 128 && len(missing) == 0, fmt.Sprintf("len=%d; bytes not marked for escaping: %s", idx, strings.Join(missing, ",")))
		// anything else marked costs only speed, not safety: not checked
	}
	html := []int64{'<', '>', '&'}
	js := []int64{0x2028, 0x2029}
	bad := []int64{0xFFFD, 0x2028, 0x2029}
	if f := p.Func("jsonwire.NeedEscape"); f == nil {
		c.Undecide("jsonwire.NeedEscape", "function missing")
	} else {
		gs := boolGroups(p, f)
		c.Oblige("NeedEscape:multibyte", f.Pos(), hasGroup(gs, bad, 0), "NeedEscape does not test for U+FFFD, U+2028 and U+2029 together")
		usesTable := false
		InspectNoLit(f.Body(), func(n ast.Node) bool {
			if id, ok := n.(*ast.Ident); ok && f.Info().Uses[id] == p.Lookup("jsonwire", "escapeASCII") {
				usesTable = true
			}
			return true
		})
		c.Oblige("NeedEscape:ascii-table", f.Pos(), usesTable, "NeedEscape does not consult escapeASCII")
	}
	if f := p.Func("jsonwire.AppendQuote"); f == nil {
		c.Undecide("jsonwire.AppendQuote", "function missing")
	} else {
		gs := boolGroups(p, f)
		c.Oblige("AppendQuote:html", f.Pos(), hasGroup(gs, html, ft.Single["EscapeForHTML"]), "no condition relating {<,>,&} to EscapeForHTML")
		c.Oblige("AppendQuote:js", f.Pos(), hasGroup(gs, js, ft.Single["EscapeForJS"]), "no condition relating {U+2028,U+2029} to EscapeForJS")
		c.Oblige("AppendQuote:skip-set", f.Pos(), hasGroup(gs, bad, 0), "the multi-byte fast `continue` does not exclude U+FFFD, U+2028 and U+2029")
		// the only flag that may relax the HTML escaping is EscapeForHTML: no group with html consts mentions another flag
		for _, g := range gs {
			if g.consts['<'] || g.consts['>'] || g.consts['&'] {
				c.Oblige("AppendQuote:html-exact", g.expr.Pos(), g.consts['<'] && g.consts['>'] && g.consts['&'] && g.flags&^ft.Single["EscapeForHTML"] == 0,
					"HTML-sensitive bytes are handled by a condition that does not cover all of < > & or depends on another option: "+exprString(g.expr))
			}
		}
		// errors for invalid UTF-8 are only waived by AllowInvalidUTF8
		waived := false
		InspectNoLit(f.Body(), func(n ast.Node) bool {
			if ifs, ok := n.(*ast.IfStmt); ok {
				fl := uint64(0)
				ast.Inspect(ifs.Cond, func(m ast.Node) bool {
					if call, ok := m.(*ast.CallExpr); ok {
						if mm, _, v, ok := FlagCall(f.Info(), call); ok && mm == "Get" {
							fl |= v &^ 1
						}
					}
					return true
				})
				for _, r := range findAll[*ast.ReturnStmt](ifs.Body) {
					if len(r.Results) == 2 && IdentOrSelObj(f.Info(), r.Results[1]) == p.Lookup("jsonwire", "ErrInvalidUTF8") && fl == ft.Single["AllowInvalidUTF8"] {
						waived = true
					}
				}
			}
			return true
		})
		c.Oblige("AppendQuote:invalid-utf8-error", f.Pos(), waived, "ErrInvalidUTF8 is not returned under a condition on exactly AllowInvalidUTF8")
	}
	if f := p.Func("jsonwire.ReformatString"); f == nil {
		c.Undecide("jsonwire.ReformatString", "function missing")
	} else {
		gs := boolGroups(p, f)
		c.Oblige("ReformatString:html", f.Pos(), hasGroup(gs, html, ft.Single["EscapeForHTML"]), "PreserveRawStrings branch: no condition relating {<,>,&} to EscapeForHTML")
		c.Oblige("ReformatString:js", f.Pos(), hasGroup(gs, js, ft.Single["EscapeForJS"]), "PreserveRawStrings branch: no condition relating {U+2028,U+2029} to EscapeForJS")
		// verbatim copy only under !AnyEscape: the first if whose body appends src[:n] and returns
		info := f.Info()
		anyEsc := ft.Named["AnyEscape"]
		found, guarded := false, false
		for _, ifs := range findAll[*ast.IfStmt](f.Body()) {
			if p.Parent(f.File, ifs) != ast.Node(f.Body()) {
				continue
			}
			verb := false
			for _, call := range findAll[*ast.CallExpr](ifs.Body) {
				if IsBuiltin(info, call, "append") && call.Ellipsis.IsValid() && len(call.Args) == 2 {
					if sl, ok := ast.Unparen(call.Args[1]).(*ast.SliceExpr); ok && sl.Low == nil {
						verb = true
					}
				}
			}
			if !verb || len(findAll[*ast.ReturnStmt](ifs.Body)) == 0 {
				continue
			}
			found = true
			// condition must contain !flags.Get(AnyEscape) as a top-level conjunct
			var conj []ast.Expr
			var split func(e ast.Expr)
			split = func(e ast.Expr) {
				e = ast.Unparen(e)
				if be, ok := e.(*ast.BinaryExpr); ok && be.Op == token.LAND {
					split(be.X)
					split(be.Y)
					return
				}
				conj = append(conj, e)
			}
			split(ifs.Cond)
			for _, cj := range conj {
				if u, ok := cj.(*ast.UnaryExpr); ok && u.Op == token.NOT {
					if v, ok := IsFlagGet(info, u.X); ok && v&^1 == anyEsc&^1 && anyEsc != 0 {
						guarded = true
					}
				}
			}
			break
		}
		if !found {
			c.Undecide("jsonwire.ReformatString/verbatim-branch", "verbatim copy branch not recognised")
		} else {
			c.Oblige("ReformatString:verbatim-guard", f.Pos(), guarded, "the verbatim-copy branch is not guarded by !flags.Get(AnyEscape)")
		}
	}
	// parseFieldOptions: quotedName from AppendQuote, nameNeedEscape from NeedEscape
	if f := p.Func("json.parseFieldOptions"); f == nil {
		c.Undecide("json.parseFieldOptions", "function missing")
	} else {
		info := f.Info()
		qn := p.Field("json", "fieldOptions", "quotedName")
		ne := p.Field("json", "fieldOptions", "nameNeedEscape")
		okQ, okN := false, false
		for _, fs := range fieldStores(info, f.Body(), false) {
			as, _ := fs.Stmt.(*ast.AssignStmt)
			if as == nil || len(as.Lhs) != 1 || len(as.Rhs) != 1 {
				continue
			}
			if fs.Field == ne {
				if call, ok := ast.Unparen(as.Rhs[0]).(*ast.CallExpr); ok && FuncCall(info, call, "jsonwire", "NeedEscape") {
					okN = true
				}
			}
			if fs.Field == qn {
				// string(b) where b comes from AppendQuote
				ast.Inspect(as.Rhs[0], func(n ast.Node) bool {
					if id, ok := n.(*ast.Ident); ok {
						if v := info.Uses[id]; v != nil {
							for _, d := range defsOf(info, f.Body(), v) {
								if call, ok := ast.Unparen(d).(*ast.CallExpr); ok && (FuncCall(info, call, "jsonwire", "AppendQuote") || FuncCall(info, call, "jsontext", "AppendQuote")) {
									okQ = true
								}
							}
						}
					}
					return true
				})
			}
		}
		c.Oblige("fields:quotedName-from-AppendQuote", f.Pos(), okQ, "fieldOptions.quotedName is not produced by AppendQuote")
		c.Oblige("fields:nameNeedEscape-from-NeedEscape", f.Pos(), okN, "fieldOptions.nameNeedEscape is not produced by jsonwire.NeedEscape")
	}
}

// suffixCases collects the string case constants of switches whose tag is string(X[len(X)-2:]).
func suffixCases(f *FuncInfo) map[string]*ast.CaseClause {
	out := map[string]*ast.CaseClause{}
	for _, g := range f.prog.CalleeClosure(f, 2) {
		for k, v := range suffixCasesIn(g) {
			if _, dup := out[k]; !dup {
				out[k] = v
			}
		}
	}
	return out
}

func suffixCasesIn(f *FuncInfo) map[string]*ast.CaseClause {
	info := f.Info()
	out := map[string]*ast.CaseClause{}
	InspectNoLit(f.Body(), func(n ast.Node) bool {
		sw, ok := n.(*ast.SwitchStmt)
		if !ok || sw.Tag == nil {
			return true
		}
		call, ok := ast.Unparen(sw.Tag).(*ast.CallExpr)
		if !ok || len(call.Args) != 1 {
			return true
		}
		if tv, ok := info.Types[call.Fun]; !ok || !tv.IsType() {
			return true
		}
		if _, ok := ast.Unparen(call.Args[0]).(*ast.SliceExpr); !ok {
			return true
		}
		for _, st := range sw.Body.List {
			cc := st.(*ast.CaseClause)
			for _, e := range cc.List {
				if s, ok := ConstStr(info, e); ok {
					out[s] = cc
				}
			}
		}
		return true
	})
	return out
}

func ruleUNWRITE1(c *Ctx) {
	p := c.P
	af := p.Func("jsontext.(*encoderState).avoidFlush")
	uw := p.Func("jsontext.(*encoderState).UnwriteEmptyObjectMember")
	if af == nil || uw == nil {
		c.Undecide("jsontext.(*encoderState).avoidFlush/UnwriteEmptyObjectMember", "function missing")
		return
	}
	a, u := suffixCases(af), suffixCases(uw)
	if len(a) == 0 || len(u) == 0 {
		c.Undecide("suffix switches", "no switch over string(b[len(b)-2:]) found")
		return
	}
	empties := []string{"null", `""`, "{}", "[]"}
	ka, ku := sortedKeys(a), sortedKeys(u)
	c.Oblige("suffix-sets-equal", af.Pos(), strings.Join(ka, " ") == strings.Join(ku, " "),
		fmt.Sprintf("avoidFlush recognises %q, UnwriteEmptyObjectMember recognises %q", ka, ku))
	// both must cover every empty value
	for _, e := range empties {
		suf := e[len(e)-2:]
		_, inA := a[suf]
		_, inU := u[suf]
		c.Oblige("suffix:"+e, af.Pos(), inA && inU, fmt.Sprintf("empty value %s (suffix %q): avoidFlush=%v unwrite=%v", e, suf, inA, inU))
	}
	// lengths in UnwriteEmptyObjectMember
	info := uw.Info()
	for _, s := range ku {
		cc := u[s]
		want := -1
		for _, e := range empties {
			if strings.HasSuffix(e, s) {
				want = len(e)
			}
		}
		got := int64(-1)
		for _, as := range findAll[*ast.AssignStmt](&ast.BlockStmt{List: cc.Body}) {
			if len(as.Lhs) == 1 && len(as.Rhs) == 1 {
				if v, ok := ConstI64(info, as.Rhs[0]); ok && isIntegerType(info.TypeOf(as.Lhs[0])) {
					got = v
				}
			}
		}
		// or, when the detection is a helper of its own, the length it returns (0 = "not empty after all")
		for _, r := range findAll[*ast.ReturnStmt](&ast.BlockStmt{List: cc.Body}) {
			if len(r.Results) == 1 {
				if v, ok := ConstI64(info, r.Results[0]); ok && v > 0 {
					got = v
				}
			}
		}
		c.Oblige("unwrite-length:"+s, cc.Pos(), want >= 0 && got == int64(want), fmt.Sprintf("suffix %q removes %d bytes, the empty value has %d", s, got, want))
	}
}

func rulePTR1(c *Ctx) {
	p := c.P
	w := p.Func("jsontext.appendEscapePointerName")
	r := p.Func("jsontext.unescapePointerToken")
	if w == nil || r == nil {
		c.Undecide("jsontext.appendEscapePointerName/unescapePointerToken", "function missing")
		return
	}
	// writer: switch cases rune -> appended string constant
	wmap := map[int64]string{}
	winfo := w.Info()
	for _, sw := range findAll[*ast.SwitchStmt](w.Body()) {
		for _, st := range sw.Body.List {
			cc := st.(*ast.CaseClause)
			if len(cc.List) != 1 {
				continue
			}
			k, ok := ConstI64(winfo, cc.List[0])
			if !ok {
				continue
			}
			for _, call := range findAll[*ast.CallExpr](&ast.BlockStmt{List: cc.Body}) {
				if IsBuiltin(winfo, call, "append") && len(call.Args) == 2 {
					if s, ok := ConstStr(winfo, call.Args[1]); ok {
						wmap[k] = s
					}
				}
			}
		}
	}
	c.Oblige("writer-map", w.Pos(), len(wmap) == 2 && wmap['~'] == "~0" && wmap['/'] == "~1", fmt.Sprintf("writer escapes: %v", wmap))
	// reader: ordered ReplaceAll calls
	rinfo := r.Info()
	type rep struct{ old, new string }
	var reps []rep
	for _, call := range findAll[*ast.CallExpr](r.Body()) {
		if FuncCall(rinfo, call, "strings", "ReplaceAll") && len(call.Args) == 3 {
			o, ok1 := ConstStr(rinfo, call.Args[1])
			n, ok2 := ConstStr(rinfo, call.Args[2])
			if ok1 && ok2 {
				reps = append(reps, rep{o, n})
			}
		}
	}
	ok := len(reps) == 2 && reps[0] == rep{"~1", "/"} && reps[1] == rep{"~0", "~"}
	c.Oblige("reader-order", r.Pos(), ok, fmt.Sprintf("reader replacements in order: %v (RFC 6901 requires ~1 before ~0)", reps))
}

// ---- SINK-1 ------------------------------------------------------------------

var safeProducers = map[string]string{
	"strconv.AppendInt":          "decimal digits and '-'",
	"strconv.AppendUint":         "decimal digits",
	"jsonwire.AppendFloat":       "digits, '.', 'e', '+', '-', or NaN/Infinity letters",
	"json.appendDurationISO8601": "ISO 8601 duration alphabet",
	"json.appendDurationBase10":  "digits, '.', '-'",
	"json.appendTimeUnix":        "digits, '.', '-'",
	"time.(Duration).String":     "digits, '.', '-' and unit letters (h m s n and the micro sign, none of which ever needs escaping)",
}

func ruleSINK1(c *Ctx) {
	p := c.P
	n := 0
	for _, f := range p.FuncsIn("json", "v1") {
		if f.Body() == nil {
			continue
		}
		info := f.Info()
		InspectNoLit(f.Body(), func(nd ast.Node) bool {
			call, ok := nd.(*ast.CallExpr)
			if !ok {
				return true
			}
			if _, ok := MethodCall(info, call, "jsontext", "encoderState", "AppendRaw"); !ok || len(call.Args) != 3 {
				return true
			}
			n++
			key := fmt.Sprintf("appendraw:%s@%s", f.Name, exprString(call.Args[2]))
			if _, isLit := ast.Unparen(call.Args[2]).(*ast.FuncLit); isLit {
				key = fmt.Sprintf("appendraw:%s@func", f.Name)
			}
			safe := call.Args[1]
			if tv, ok := info.Types[safe]; ok && tv.Value != nil {
				if tv.Value.String() == "false" {
					c.OK(key, call.Pos(), "safeASCII=false: output is re-validated by AppendRaw")
					return true
				}
				// literal true: audit the producers
				badProd := sinkProducers(p, f, call.Args[2])
				c.Oblige(key, call.Pos(), len(badProd) == 0, "safeASCII=true but the callback uses producers outside the reviewed ASCII-safe table: "+strings.Join(badProd, ", "))
				return true
			}
			// non-constant: must be !X.hasCustomFormat()
			okNeg := false
			if u, ok := ast.Unparen(safe).(*ast.UnaryExpr); ok && u.Op == token.NOT {
				okNeg = isCustomFormatTest(p, f, u.X, 0)
			}
			c.Oblige(key, call.Pos(), okNeg, "non-constant safeASCII argument is not `!hasCustomFormat()`: "+exprString(safe))
			return true
		})
	}
	c.Floor("AppendRaw call sites", n, 6)
	// quotedName emitted only under !nameNeedEscape
	qn := p.Field("json", "fieldOptions", "quotedName")
	ne := p.Field("json", "fieldOptions", "nameNeedEscape")
	if qn == nil || ne == nil {
		c.Undecide("json.fieldOptions.quotedName/nameNeedEscape", "field missing")
		return
	}
	nq := 0
	for _, f := range p.FuncsIn("json") {
		if f.Body() == nil {
			continue
		}
		info := f.Info()
		InspectNoLit(f.Body(), func(nd ast.Node) bool {
			call, ok := nd.(*ast.CallExpr)
			if !ok || !IsBuiltin(info, call, "append") || len(call.Args) != 2 || SelField(info, call.Args[1]) != qn {
				return true
			}
			nq++
			// must sit in the then-branch of `if !f.nameNeedEscape`
			guarded := false
			var x ast.Node = call
			for x != nil && x != ast.Node(f.Body()) {
				par := p.Parent(f.File, x)
				if ifs, ok := par.(*ast.IfStmt); ok && ifs.Body == x {
					if u, ok := ast.Unparen(ifs.Cond).(*ast.UnaryExpr); ok && u.Op == token.NOT && SelField(info, u.X) == ne {
						guarded = true
					}
				}
				// or the else branch of `if f.nameNeedEscape { ... }`
				if ifs, ok := par.(*ast.IfStmt); ok && ifs.Else == x && SelField(info, ast.Unparen(ifs.Cond)) == ne {
					guarded = true
				}
				x = par
			}
			c.Oblige("quotedName-guard:"+f.Name, call.Pos(), guarded, "pre-quoted member name appended without the !nameNeedEscape guard")
			return true
		})
	}
	c.Floor("appends of the pre-quoted member name", nq, 1)
}

// sinkProducers returns the producers used by an AppendRaw callback that are not in the reviewed table.
func sinkProducers(p *Program, f *FuncInfo, cb ast.Expr) []string {
	var body *ast.BlockStmt
	info := f.Info()
	switch x := ast.Unparen(cb).(type) {
	case *ast.FuncLit:
		body = x.Body
	default:
		// method value or function identifier
		var fn *types.Func
		if sel, ok := x.(*ast.SelectorExpr); ok {
			if s := info.Selections[sel]; s != nil {
				fn, _ = s.Obj().(*types.Func)
			} else {
				fn, _ = info.Uses[sel.Sel].(*types.Func)
			}
		} else if id, ok := x.(*ast.Ident); ok {
			fn, _ = info.Uses[id].(*types.Func)
		}
		if fn == nil {
			return []string{"unresolvable callback " + exprString(cb)}
		}
		fi := p.FuncOf(fn)
		if fi == nil || fi.Body() == nil {
			return []string{"callback outside the repository: " + QualName(fn)}
		}
		body = fi.Body()
		info = fi.Info()
		f = fi
	}
	var bad []string
	seen := map[string]bool{}
	ast.Inspect(body, func(n ast.Node) bool {
		call, ok := n.(*ast.CallExpr)
		if !ok {
			return true
		}
		if tv, ok := info.Types[call.Fun]; ok && tv.IsType() {
			return true
		}
		t := info.TypeOf(call)
		producesBytes := false
		switch tt := t.(type) {
		case *types.Tuple:
			for i := 0; i < tt.Len(); i++ {
				if isByteSlice(tt.At(i).Type()) || isStringType(tt.At(i).Type()) {
					producesBytes = true
				}
			}
		default:
			producesBytes = t != nil && (isByteSlice(t) || isStringType(t))
		}
		if !producesBytes {
			return true
		}
		if b, ok := ast.Unparen(call.Fun).(*ast.Ident); ok {
			if _, isB := info.Uses[b].(*types.Builtin); isB {
				return true // append etc.
			}
		}
		name := ""
		if cf := Callee(info, call); cf != nil {
			name = QualName(cf)
			if _, ok := safeProducers[name]; ok {
				return true
			}
			// reflect accessors supply the data, they do not produce output text
			if cf.Pkg() != nil && cf.Pkg().Path() == "reflect" {
				return true
			}
			if name == "cmp.Or" {
				return true
			}
		} else {
			// dynamic: a func-typed variable; accept the base16/32/64 encoders
			if v := IdentObj(info, call.Fun); v != nil && encoderVar(p, f, v) {
				return true
			}
			// or a func-typed struct field that only ever holds those encoders (`codec.appendEncode`)
			if fld := SelField(info, call.Fun); fld != nil && encoderField(p, f, fld) {
				return true
			}
			name = "dynamic " + exprString(call.Fun)
		}
		if !seen[name] {
			seen[name] = true
			bad = append(bad, name)
		}
		return true
	})
	sort.Strings(bad)
	return bad
}

func isStringType(t types.Type) bool {
	b, ok := t.Underlying().(*types.Basic)
	return ok && b.Kind() == types.String
}

// encoderVar reports whether v is (a local whose definitions are all) one of the package-level
// appendEncode* variables bound to encoding/hex|base32|base64 AppendEncode.
func encoderVar(p *Program, f *FuncInfo, v types.Object) bool {
	isPkgEncoder := func(o types.Object) bool {
		pk := p.Pkg("json")
		if o == nil || pk == nil || o.Parent() != pk.Types.Scope() {
			return false
		}
		for _, file := range pk.Syntax {
			for _, vs := range findAllDeep[*ast.ValueSpec](file) {
				for i, nm := range vs.Names {
					if pk.TypesInfo.Defs[nm] == o && i < len(vs.Values) {
						if sel, ok := ast.Unparen(vs.Values[i]).(*ast.SelectorExpr); ok && sel.Sel.Name == "AppendEncode" {
							if fn, ok := pk.TypesInfo.Uses[sel.Sel].(*types.Func); ok && fn.Pkg() != nil {
								switch fn.Pkg().Path() {
								case "encoding/hex", "encoding/base32", "encoding/base64":
									return true
								}
							}
						}
					}
				}
			}
		}
		return false
	}
	if isPkgEncoder(v) {
		return true
	}
	decl := p.enclosingDecl(f)
	if decl == nil {
		return false
	}
	defs := defsOf(f.Info(), decl.Body(), v)
	if len(defs) == 0 {
		return false
	}
	for _, d := range defs {
		if !isPkgEncoder(IdentObj(f.Info(), d)) {
			return false
		}
	}
	return true
}

// encoderField: every value stored into the func-typed field fld (keyed or positional composite literal,
// assignment) in package json is one of the package-level appendEncode* encoders.
func encoderField(p *Program, f *FuncInfo, fld *types.Var) bool {
	pk := p.Pkg("json")
	if pk == nil {
		return false
	}
	n, ok := 0, true
	check := func(e ast.Expr) {
		n++
		o := IdentObj(pk.TypesInfo, e)
		if o == nil || !encoderVar(p, f, o) {
			ok = false
		}
	}
	for _, file := range pk.Syntax {
		ast.Inspect(file, func(nd ast.Node) bool {
			switch x := nd.(type) {
			case *ast.CompositeLit:
				st, isSt := pk.TypesInfo.TypeOf(x).Underlying().(*types.Struct)
				if !isSt {
					return true
				}
				for i, e := range x.Elts {
					if kv, isKV := e.(*ast.KeyValueExpr); isKV {
						if id, isId := kv.Key.(*ast.Ident); isId && pk.TypesInfo.Uses[id] == fld {
							check(kv.Value)
						}
					} else if i < st.NumFields() && st.Field(i) == fld {
						check(e)
					}
				}
			case *ast.AssignStmt:
				if len(x.Lhs) == len(x.Rhs) {
					for i, l := range x.Lhs {
						if SelField(pk.TypesInfo, l) == fld {
							check(x.Rhs[i])
						}
					}
				}
			}
			return true
		})
	}
	return n > 0 && ok
}

func init() {
	register(&Rule{ID: "PTR-2", Doc: "object names enter a JSON Pointer only through the escaping routine: in every jsontext function that builds a pointer (stores to pointerSuffixError.reversePointer, state.appendStackPointer, Pointer.AppendToken) each variadic append of non-constant bytes either copies from the already-escaped reversePointer or is the argument of appendEscapePointerName", Run: rulePTR2})
}

func rulePTR2(c *Ctx) {
	ptrRuneErrorDistinguished(c)
	ptrMismatchNotLiftedTwice(c)
	p := c.P
	rp := p.Field("jsontext", "pointerSuffixError", "reversePointer")
	esc := p.Lookup("jsontext", "appendEscapePointerName")
	if rp == nil || esc == nil {
		c.Undecide("jsontext.pointerSuffixError.reversePointer / appendEscapePointerName", "missing")
		return
	}
	var subjects []*FuncInfo
	for _, f := range p.FuncsIn("jsontext") {
		if f.Decl == nil || f.Body() == nil {
			continue
		}
		if f.Name == "jsontext.(state).appendStackPointer" || f.Name == "jsontext.(Pointer).AppendToken" {
			subjects = append(subjects, f)
			continue
		}
		uses := false
		InspectNoLit(f.Body(), func(n ast.Node) bool {
			if e, ok := n.(ast.Expr); ok && SelField(f.Info(), e) == rp {
				uses = true
			}
			return !uses
		})
		if uses {
			subjects = append(subjects, f)
		}
	}
	if !c.Floor("pointer-building functions", len(subjects), 4) {
		return
	}
	for _, f := range subjects {
		info := f.Info()
		// locals that only ever hold (slices of) reversePointer
		fromRP := func(e ast.Expr) bool { return false }
		var rpLocal map[types.Object]bool
		isRP := func(e ast.Expr) bool {
			for {
				e = ast.Unparen(e)
				if sl, ok := e.(*ast.SliceExpr); ok {
					e = sl.X
					continue
				}
				break
			}
			if SelField(info, e) == rp {
				return true
			}
			if v := IdentObj(info, e); v != nil && rpLocal[v] {
				return true
			}
			return false
		}
		fromRP = isRP
		// greatest fixpoint: start from all byte-slice locals, drop those with a definition that is not (a slice of) reversePointer
		rpLocal = map[types.Object]bool{}
		InspectNoLit(f.Body(), func(n ast.Node) bool {
			if as, ok := n.(*ast.AssignStmt); ok {
				for _, l := range as.Lhs {
					if v := IdentObj(info, l); v != nil && isByteSlice(v.Type()) {
						if vv, isVar := v.(*types.Var); isVar && !vv.IsField() {
							rpLocal[v] = true
						}
					}
				}
			}
			return true
		})
		for changed := true; changed; {
			changed = false
			for v := range rpLocal {
				defs := defsOf(info, f.Body(), v)
				ok := len(defs) > 0
				for _, d := range defs {
					if !fromRP(d) {
						ok = false
					}
				}
				if !ok {
					delete(rpLocal, v)
					changed = true
				}
			}
		}
		bad := ""
		n := 0
		InspectNoLit(f.Body(), func(nd ast.Node) bool {
			call, ok := nd.(*ast.CallExpr)
			if !ok || !IsBuiltin(info, call, "append") || !call.Ellipsis.IsValid() || len(call.Args) != 2 {
				return true
			}
			n++
			src := call.Args[1]
			if _, isC := ConstStr(info, src); isC {
				return true
			}
			if isRP(src) {
				return true
			}
			if bad == "" {
				bad = fmt.Sprintf("raw bytes `%s` appended into a JSON Pointer at %s without appendEscapePointerName (a name containing '/' or '~' would corrupt the pointer)", exprString(src), p.Position(call.Pos()))
			}
			return true
		})
		c.Oblige("escaped-only:"+f.Name, f.Pos(), bad == "", bad)
	}
}

func ruleUNWRITE2(c *Ctx) {
	p := c.P
	f := p.Func("jsontext.(*encoderState).avoidFlush")
	if f == nil || f.Body() == nil {
		c.Undecide("jsontext.(*encoderState).avoidFlush", "function missing")
		return
	}
	info := f.Info()
	bufField := p.Field("jsontext", "encodeBuffer", "Buf")
	isLenBuf := func(e ast.Expr) bool {
		call, ok := ast.Unparen(e).(*ast.CallExpr)
		return ok && IsBuiltin(info, call, "len") && len(call.Args) == 1 && SelField(info, call.Args[0]) == bufField
	}
	// atoms: 0 Length()==0, 1 needObjectValue(), 2 NeedObjectName(), 3 len(Buf)>=2, 4 suffix is an empty value
	atom := func(e ast.Expr) (int, bool, bool) {
		switch x := e.(type) {
		case *ast.CallExpr:
			if _, ok := MethodCall(info, x, "jsontext", "stateEntry", "needObjectValue"); ok {
				return 1, false, true
			}
			if _, ok := MethodCall(info, x, "jsontext", "stateEntry", "NeedObjectName"); ok {
				return 2, false, true
			}
		case *ast.BinaryExpr:
			if call, ok := ast.Unparen(x.X).(*ast.CallExpr); ok {
				if _, isLen := MethodCall(info, call, "jsontext", "stateEntry", "Length"); isLen {
					if v, isC := ConstI64(info, x.Y); isC {
						switch {
						case x.Op == token.EQL && v == 0, x.Op == token.LSS && v == 1, x.Op == token.LEQ && v == 0:
							return 0, false, true
						case x.Op == token.NEQ && v == 0, x.Op == token.GTR && v == 0, x.Op == token.GEQ && v == 1:
							return 0, true, true
						}
					}
				}
			}
			if isLenBuf(x.X) {
				if v, isC := ConstI64(info, x.Y); isC {
					switch {
					case x.Op == token.GEQ && v == 2, x.Op == token.GTR && v == 1:
						return 3, false, true
					case x.Op == token.LSS && v == 2, x.Op == token.LEQ && v == 1:
						return 3, true, true
					}
				}
			}
		}
		return 0, false, false
	}
	caseAtom := func(tag, val ast.Expr) (int, bool) {
		// switch string(e.Buf[len(e.Buf)-2:]) { case `ll`, ... }
		mentions := false
		ast.Inspect(tag, func(n ast.Node) bool {
			if x, ok := n.(ast.Expr); ok && SelField(info, x) == bufField {
				mentions = true
			}
			return !mentions
		})
		if _, isStr := ConstStr(info, val); mentions && isStr {
			return 4, true
		}
		return 0, false
	}
	tt := TruthTableCase(f, 5, atom, caseAtom, func(v uint) bool { return v&6 != 6 })
	var bad []string
	for _, v := range sortedKeysUint(tt) {
		a0, a1, a2, a3, a4 := v&1 != 0, v&2 != 0, v&4 != 0, v&8 != 0, v&16 != 0
		want := triNo
		if a0 || a1 || (a2 && a3 && a4) {
			want = triYes
		}
		if tt[v] != want {
			got := map[tri]string{triYes: "true", triNo: "false", triUnknown: "not determined by these conditions"}[tt[v]]
			bad = append(bad, fmt.Sprintf("Length()==0:%v needObjectValue:%v NeedObjectName:%v len(Buf)>=2:%v empty-suffix:%v -> %s, want %v", a0, a1, a2, a3, a4, got, want == triYes))
		}
	}
	if len(tt) < 24 {
		c.Undecide("avoidFlush/valuations", fmt.Sprintf("only %d valuations explored", len(tt)))
		return
	}
	detail := ""
	if len(bad) > 0 {
		detail = fmt.Sprintf("avoidFlush differs from `Length()==0 || needObjectValue() || (NeedObjectName() && len(Buf)>=2 && empty suffix)` on %d of %d state valuations, e.g. %s", len(bad), len(tt), bad[0])
	}
	c.obligeW("avoidflush:truth-table", f.Pos(), len(bad) == 0, detail, strings.Join(bad, " ; "))

	// Flush consults avoidFlush before it touches the writer or the buffer
	fl := p.Func("jsontext.(*encoderState).Flush")
	if fl == nil || fl.Body() == nil {
		c.Undecide("jsontext.(*encoderState).Flush", "function missing")
		return
	}
	finfo := fl.Info()
	wrField := p.Field("jsontext", "encodeBuffer", "wr")
	type st struct{ avoid tri }
	badFlush := ""
	touches := func(n ast.Node) bool {
		t := false
		ast.Inspect(n, func(x ast.Node) bool {
			switch y := x.(type) {
			case *ast.FuncLit:
				return false
			case *ast.CallExpr:
				if cf := Callee(finfo, y); cf != nil && cf.Name() != "avoidFlush" {
					if sig, ok := cf.Type().(*types.Signature); ok && sig.Recv() != nil && isEncoderState(sig.Recv().Type()) {
						t = true
					}
				}
			case *ast.SelectorExpr:
				if fld := SelField(finfo, y); fld != nil && (fld == wrField || fld == bufField) {
					if par, ok := p.Parent(fl.File, y).(*ast.BinaryExpr); ok && (par.Op == token.EQL || par.Op == token.NEQ) && fld == wrField {
						return true // e.wr == nil test
					}
					t = true
				}
			}
			return !t
		})
		return t
	}
	flow := &Flow[st]{Fn: fl}
	flow.Node = func(n ast.Node, s st) []st {
		if _, isRet := n.(*ast.ReturnStmt); isRet {
			if s.avoid != triNo && touches(n) && badFlush == "" {
				badFlush = "returns through a flushing call at " + p.Position(n.Pos()) + " without avoidFlush() having been false"
			}
			return nil
		}
		if s.avoid != triNo && touches(n) && badFlush == "" {
			badFlush = "uses the writer or the buffer at " + p.Position(n.Pos()) + " on a path where avoidFlush() has not been found false"
		}
		return []st{s}
	}
	flow.Leaf = func(e ast.Expr, s st) (t, fs []st) {
		if call, ok := ast.Unparen(e).(*ast.CallExpr); ok {
			if _, ok := MethodCall(finfo, call, "jsontext", "encoderState", "avoidFlush"); ok {
				return []st{{triYes}}, []st{{triNo}}
			}
		}
		return []st{s}, []st{s}
	}
	flow.Run(st{})
	c.Oblige("flush-consults-avoidflush", fl.Pos(), badFlush == "", badFlush)
}

func sortedKeysUint[V any](m map[uint]V) []uint {
	ks := make([]uint, 0, len(m))
	for k := range m {
		ks = append(ks, k)
	}
	sort.Slice(ks, func(i, j int) bool { return ks[i] < ks[j] })
	return ks
}

// isCustomFormatTest reports whether e decides "the time arshaler uses a caller-supplied layout":
// `X.base == math.MaxUint`, directly, through a predicate method/function whose body is one such return,
// or through a local defined once by such an expression.
func isCustomFormatTest(p *Program, f *FuncInfo, e ast.Expr, depth int) bool {
	info := f.Info()
	e = ast.Unparen(e)
	switch x := e.(type) {
	case *ast.BinaryExpr:
		if x.Op != token.EQL {
			return false
		}
		for _, pr := range [][2]ast.Expr{{x.X, x.Y}, {x.Y, x.X}} {
			if fv := SelField(info, pr[0]); fv != nil && fv.Name() == "base" {
				if v, ok := ConstU64(info, pr[1]); ok && v == ^uint64(0) {
					return true
				}
			}
		}
	case *ast.CallExpr:
		if depth > 1 {
			return false
		}
		if cf := Callee(info, x); cf != nil {
			if g := p.FuncOf(cf); g != nil && g.Body() != nil {
				rets := Returns(g.Body())
				if len(rets) == 1 && len(rets[0].Results) == 1 && len(g.Body().List) == 1 {
					return isCustomFormatTest(p, g, rets[0].Results[0], depth+1)
				}
			}
		}
	case *ast.Ident:
		v := IdentObj(info, x)
		if v == nil || depth > 1 {
			return false
		}
		var def ast.Expr
		n := 0
		InspectNoLit(f.Body(), func(nd ast.Node) bool {
			if as, ok := nd.(*ast.AssignStmt); ok && len(as.Lhs) == len(as.Rhs) {
				for i, l := range as.Lhs {
					if IdentObj(info, l) == v {
						n++
						def = as.Rhs[i]
					}
				}
			}
			return true
		})
		if n == 1 {
			return isCustomFormatTest(p, f, def, depth+1)
		}
	}
	return false
}
