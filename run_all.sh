#!/bin/sh
# Runs every claimed check (quick by default) against /repo; prints one line per property.
tier=${1:-quick}
rc=0
for p in $(python3 -c "import json;print(' '.join(c['property_id'] for c in json.load(open('/verif/MANIFEST.json'))['checks']))"); do
  out=$(bin/jsonsa check -property $p -tier $tier -repo /repo 2>&1); r=$?
  echo "$p exit=$r $(echo "$out" | grep '^property=' | cut -c1-160)"
  [ $r -ne 0 ] && { echo "$out" | grep -E 'VIOLATION|UNDECIDED|violation' | head -5; rc=1; }
done
exit $rc
