#!/usr/bin/env python3
"""Parallel variant of record_caught.py: applies each seed to the scratch worktree $REPO (default /tmp/base),
runs every quick check concurrently, records which rules fire in meta.json, undoes the patch."""
import json,os,subprocess,sys,re
from concurrent.futures import ThreadPoolExecutor
repo=os.environ.get('REPO','/tmp/base')
ids=sys.argv[1:]
man=json.load(open('/verif/MANIFEST.json'))
props=[c['property_id'] for c in man['checks']]
run='/tmp/seedrun_p'
subprocess.run(['rm','-rf',run]); os.makedirs(run,exist_ok=True)
subprocess.run(['cp','/verif/known_findings.json',run+'/known_findings.json'])
def one(p):
    out=subprocess.run(['/verif/bin/jsonsa','check','-property',p,'-tier','quick','-repo',repo,'-verif',run],capture_output=True,text=True)
    if out.returncode==0: return p,None
    rules=sorted(set(re.findall(r'violation rule=(\S+) construct=(\S+)',out.stdout)))
    und=sorted(set(re.findall(r'UNDECIDED property=\S+ rule=(\S+)',out.stdout)))
    return p,[f"{a}:{b}" for a,b in rules]+[f"UNDECIDED:{u}" for u in und]
for i in ids:
    d='/verif/seeded/'+i
    assert subprocess.run(['git','-C',repo,'diff','--quiet']).returncode==0,repo+" dirty"
    r=subprocess.run(['git','-C',repo,'apply',d+'/patch.diff'],capture_output=True)
    if r.returncode!=0:
        print(i,'PATCH DOES NOT APPLY'); continue
    try:
        with ThreadPoolExecutor(10) as ex:
            caught={p:v for p,v in ex.map(one,props) if v is not None}
    finally:
        subprocess.run(['git','-C',repo,'checkout','--','.'])
    m=json.load(open(d+'/meta.json'))
    m['caught_by']=caught
    m['caught']=bool(caught.get(m['property']))
    json.dump(m,open(d+'/meta.json','w'),indent=1)
    print(i,'caught-by-own-property' if m['caught'] else ('caught-elsewhere' if caught else 'MISSED'),{k:v[:2] for k,v in caught.items()},flush=True)
subprocess.run(['rm','-rf',run])
