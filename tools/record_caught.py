#!/usr/bin/env python3
"""For every /verif/seeded/<id>/: apply patch to /repo, run all quick checks, record which rules fire, undo."""
import json,os,subprocess,sys,re
ids=sys.argv[1:] or sorted(os.listdir('/verif/seeded'))
man=json.load(open('/verif/MANIFEST.json'))
props=[c['property_id'] for c in man['checks']]
os.makedirs('/tmp/seedrun',exist_ok=True)
subprocess.run(['cp','/verif/known_findings.json','/tmp/seedrun/known_findings.json'])  # open findings are not catches
for i in ids:
    d='/verif/seeded/'+i
    if not os.path.exists(d+'/patch.diff'): continue
    assert subprocess.run(['git','-C','/repo','diff','--quiet']).returncode==0,"/repo dirty"
    r=subprocess.run(['git','-C','/repo','apply',d+'/patch.diff'],capture_output=True)
    if r.returncode!=0:
        r=subprocess.run(['git','-C','/repo','apply','-C1',d+'/patch.diff'],capture_output=True)
    if r.returncode!=0:
        print(i,'PATCH DOES NOT APPLY'); continue
    caught={}
    try:
        for p in props:
            out=subprocess.run(['/verif/bin/jsonsa','check','-property',p,'-tier','quick','-repo','/repo','-verif','/tmp/seedrun'],capture_output=True,text=True)
            if out.returncode!=0:
                rules=sorted(set(re.findall(r'violation rule=(\S+) construct=(\S+)',out.stdout)))
                und=sorted(set(re.findall(r'UNDECIDED property=\S+ rule=(\S+)',out.stdout)))
                caught[p]=[f"{a}:{b}" for a,b in rules]+[f"UNDECIDED:{u}" for u in und]
    finally:
        subprocess.run(['git','-C','/repo','checkout','--','.'])
    m=json.load(open(d+'/meta.json'))
    m['caught_by']=caught
    m['caught']=bool(caught.get(m['property']))
    json.dump(m,open(d+'/meta.json','w'),indent=1)
    print(i,'caught-by-own-property' if m['caught'] else ('caught-elsewhere' if caught else 'MISSED'),{k:v[:2] for k,v in caught.items()})
subprocess.run(['rm','-rf','/tmp/seedrun'])
