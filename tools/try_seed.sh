#!/bin/sh
# usage: tools/try_seed.sh <patch.diff> [properties...]   -- applies the patch to /repo, runs the quick checks, undoes it
patch=$1; shift
REPO=${REPO:-/repo}
props=${*:-$(python3 -c "import json;print(' '.join(c['property_id'] for c in json.load(open('/verif/MANIFEST.json'))['checks']))")}
cd $REPO || exit 2
git diff --quiet || { echo "$REPO not clean"; exit 2; }
git apply "$patch" 2>/dev/null || git apply -C1 "$patch" || { echo "patch does not apply"; exit 2; }
cd /verif
mkdir -p /tmp/seedrun && cp /verif/known_findings.json /tmp/seedrun/
for p in $props; do
  out=$(bin/jsonsa check -property $p -tier quick -repo $REPO -verif /tmp/seedrun 2>&1); r=$?
  if [ $r -ne 0 ]; then echo "== $p exit=$r"; echo "$out" | grep -E '^  violation|UNDECIDED' | cut -c1-300; fi
done
git -C $REPO checkout -- . ; git -C $REPO status --short | head -3
rm -rf /tmp/seedrun
