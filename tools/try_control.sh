#!/bin/sh
# usage: tools/try_control.sh <diff> — applies a behaviour-preserving diff to the scratch copy /tmp/base, runs every quick check there, undoes it;
# prints the distinct reports (each one is a false alarm of the machinery)
d=$1
git -C /tmp/base diff --quiet || { echo "/tmp/base not clean"; exit 2; }
git -C /tmp/base apply "$d" || exit 2
cd /verif
mkdir -p /tmp/baseout && cp /verif/known_findings.json /tmp/baseout/
for p in $(python3 -c "import json;print(' '.join(c['property_id'] for c in json.load(open('/verif/MANIFEST.json'))['checks']))"); do
  bin/jsonsa check -property $p -repo /tmp/base -verif /tmp/baseout 2>&1 | grep -E "^  violation|^UNDECIDED" | sed 's/^UNDECIDED property=C[0-9]* /UNDECIDED /' | cut -c1-${W:-260}
done | sort | uniq -c | sort -rn
git -C /tmp/base checkout -- . ; git -C /tmp/base clean -fdq
