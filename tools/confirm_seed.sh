#!/bin/sh
# usage: tools/confirm_seed.sh <worktree> <seed-id> <property>
# Confirms (a) suite passes with the change, (b) demo fails with it, (c) demo passes without it,
# then stores patch, demo and meta.json under /verif/seeded/<seed-id>/.
wt=$1; id=$2; prop=$3
export GOFLAGS=-mod=mod GOPROXY=off GOSUMDB=off GOTOOLCHAIN=local
cd "$wt" || exit 2
[ -f _seed/patch.diff ] || { echo "no _seed/patch.diff"; exit 2; }
a=fail; b=fail; c=fail
if go1.26.8 test -vet=off -count=1 -skip 'Seed' ./... >/tmp/cs_a.log 2>&1; then a=pass; fi
if go1.26.8 test -vet=off -count=1 -run 'Seed' ./... >/tmp/cs_b.log 2>&1; then b=unexpected-pass; else b=fails-as-expected; fi
git apply -R _seed/patch.diff || { echo "cannot reverse patch"; exit 2; }
if go1.26.8 test -vet=off -count=1 -run 'Seed' ./... >/tmp/cs_c.log 2>&1; then c=pass; fi
git apply _seed/patch.diff
echo "suite-with-change=$a demo-with-change=$b demo-without-change=$c"
if [ "$a" = pass ] && [ "$b" = fails-as-expected ] && [ "$c" = pass ]; then
  d=/verif/seeded/$id; mkdir -p $d/demo
  cp _seed/patch.diff $d/patch.diff
  cp -r _seed/demo/. $d/demo/ 2>/dev/null
  cp _seed/README.md $d/README.md 2>/dev/null
  python3 - "$d" "$id" "$prop" <<'PY'
import json,sys,subprocess
d,i,p=sys.argv[1:4]
json.dump({"id":i,"property":p,"source":"independent sub-agent given only the property text and a scratch worktree",
 "needs_to_manifest":"see README.md (written by the sub-agent)",
 "confirmed":{"suite_with_change":"pass (go1.26.8 test -vet=off -count=1 -skip Seed ./...)",
   "demo_with_change":"fails (go1.26.8 test -run Seed ./...)","demo_without_change":"pass (after git apply -R)"},
 "base_commit":subprocess.check_output(['git','rev-parse','--short','HEAD']).decode().strip(),
 "caught_by":[]},open(d+"/meta.json","w"),indent=1)
PY
  echo "stored in $d"
else
  echo "NOT CONFIRMED"; tail -5 /tmp/cs_a.log /tmp/cs_b.log /tmp/cs_c.log
fi
