#!/bin/sh
# usage: tools/try_refactor.sh <diff>   — applies a behaviour-preserving diff to /repo, runs every quick check, undoes it.
# Any VIOLATION/UNDECIDED here is a false alarm of the machinery.
d=$1
git -C /repo apply --check "$d" || { echo "does not apply: $d"; exit 2; }
git -C /repo apply "$d"
cd /verif && ./run_all.sh 2>&1 | grep -v "exit=0"
git -C /repo checkout -- .
git -C /repo clean -fdq
[ -z "$(git -C /repo status --short)" ] || echo "REPO NOT CLEAN"
