#!/usr/bin/env python3
"""Regenerate the property -> rules table of DESIGN.md section 9.3 from sa/props.go."""
import re, sys
props = open('/verif/sa/props.go').read()
rows = re.findall(r'"(C\d\d)": \{\n\t\tRules:\s+\[\]string\{(.*?)\}', props)
tab = "| property | rules |\n|---|---|\n" + "".join(
    "| %s | %s |\n" % (p, ", ".join(r.strip().strip('"') for r in rs.split(","))) for p, rs in rows)
d = open('/verif/DESIGN.md').read()
h = d.index('### 9.3 ')
a = d.index('| property | rules |', h)
m = re.compile(r'(?:\|[^\n]*\n)+').match(d, a)
assert m and len(rows) == 20
d = d[:a] + tab + d[m.end():]
open('/verif/DESIGN.md', 'w').write(d)
print("rows", len(rows))
